"""Boundary census: ordering comparisons of the protocol core, keyed by function and operand atoms, with the
partition of {lt, eq, gt} they induce.  An off-by-one (`<` for `<=`, `>` for `>=`) changes the partition while keeping
the key; a behaviour-preserving rewrite (`a < b` as `!(a >= b)`, `b > a`, PartialOrd method vs operator, swapped
branches) keeps both.  The reviewed instances live in rules/boundaries.json: one line of reason per entry and the
property for which the boundary is a necessary condition.  A key that no longer exists is *not* a violation (the
comparison may have been restructured); the census fails closed only when too few of its keys are found."""
import collections
import json
import os

from . import core
from .core import strip, walk

HERE = os.path.dirname(os.path.abspath(__file__))
TABLE = os.path.join(HERE, 'rules', 'boundaries.json')

_STD_KEEP = ('min', 'max', 'len', 'remaining', 'capacity', 'saturating_sub', 'overflowing_add', 'wrapping_add', 'checked_sub', 'checked_add', 'unwrap_or', 'map_or')


def operand_atoms(e, depth=0):
    out = set()

    def leaf(x, d):
        x = strip(x)
        k = x[0]
        if k == 'call':
            short = x[1].rsplit('::', 1)[-1]
            if x[1].startswith(('proto::', 'frame::', 'codec::', 'hpack::', 'client::', 'server::', 'share::')):
                out.add('call:' + short)
                # accessor-style calls: keep the receiver too (window_size of *which* flow)
                if d < 3:
                    for a in x[2][:1]:
                        leaf(a, d + 1)
            elif short in _STD_KEEP:
                out.add('std:' + short)
                for a in x[2]:
                    leaf(a, d + 1)
            elif x[2]:
                leaf(x[2][0], d + 1)
        elif k == 'field':
            out.add('field:' + x[3])
            if d < 3:
                leaf(x[1], d + 1)
        elif k == 'const':
            if isinstance(x[1], int):
                out.add('const:%d' % x[1])
        elif k == 'arg':
            out.add('arg:%d' % x[1])
        elif k == 'bin':
            out.add('op:' + x[1].replace('WithOverflow', '').replace('Unchecked', ''))
            leaf(x[2], d + 1)
            leaf(x[3], d + 1)
        elif k in ('un', 'cast', 'discr', 'variant', 'index', 'upvar'):
            leaf(x[2] if k == 'un' else x[1], d + 1)
    leaf(e, depth)
    # positional noise: numeric tuple fields (.0 of checked arithmetic / newtypes)
    return frozenset(a for a in out if not (a.startswith('field:') and a[6:].isdigit()))


def partition_name(regs):
    """canonical name of the partition of {lt,eq,gt} induced by a comparison: 'lt|ge', 'le|gt', 'eq|ne'"""
    parts = set(frozenset(o) for o in regs)
    if parts == {frozenset(['lt']), frozenset(['eq', 'gt'])}:
        return 'lt|ge'
    if parts == {frozenset(['lt', 'eq']), frozenset(['gt'])}:
        return 'le|gt'
    if parts == {frozenset(['eq']), frozenset(['lt', 'gt'])}:
        return 'eq|ne'
    return '?'


def _flip(name):
    return {'lt|ge': 'le|gt', 'le|gt': 'lt|ge'}.get(name, name)


def comparisons(F, f):
    """[(key, partition, line)] for every ordering comparison in f: switch subjects and stored / returned results"""
    out = []
    seen_bin = set()

    def add(op, a, b, ln):
        if op in ('Eq', 'Ne'):
            # unsigned x against 0: `x == 0` is `x <= 0`, `x != 0` is `x > 0` (and mirrored)
            if core.is_unsigned_zero(b):
                op = 'Le' if op == 'Eq' else 'Gt'
            elif core.is_unsigned_zero(a):
                op = 'Ge' if op == 'Eq' else 'Lt'
        if op not in ('Lt', 'Le', 'Gt', 'Ge'):
            return
        A, B = operand_atoms(a), operand_atoms(b)
        part = 'lt|ge' if op in ('Lt', 'Ge') else 'le|gt'
        # orientation-free key: order the two sides canonically; swapping sides mirrors the partition
        sa, sb = '+'.join(sorted(A)) or '-', '+'.join(sorted(B)) or '-'
        if sa > sb:
            sa, sb = sb, sa
            part = _flip(part)
        elif sa == sb and core.earlier_operand(f, a, b) > 0:
            part = _flip(part)  # same roots: "earlier value || later value
        out.append(('%s || %s' % (sa, sb), part, ln))
    for bi, sw in core.all_switches(F, f).items():
        if sw is None:
            continue
        t = f.term(bi)
        if t.get('exp') and any(k in t['exp'] for k in ('trace', 'debug!', 'event', 'span', 'warn', 'error!', 'info!')):
            continue
        c = core.cmp_of(sw)
        if c is None:
            continue
        add(c[0], c[1], c[2], f.line_of(bi))
        seen_bin.add(f.line_of(bi))
    # comparisons whose result is returned or stored (no switch): `fn can_inc(..) -> bool { self.max > self.num }`
    # (compiler-generated overflow / bounds / shift checks feed Assert terminators and are skipped)
    used_by_switch = set()
    for bi, b in enumerate(f.blocks):
        if b['cu']:
            continue
        if b['t']['k'] == 'sw':
            l = core.op_local(b['t']['o'])
            if l is not None:
                used_by_switch.add(l)
        if b['t']['k'] == 'assert':
            l = core.op_local(b['t']['cond'])
            if l is not None:
                used_by_switch.add(l)
    for bi, si, pl, rv, ln in f.stmts():
        if rv[0] == 'bin' and rv[1] in ('Lt', 'Le', 'Gt', 'Ge', 'Eq', 'Ne') and not (len(pl) == 1 and pl[0] in used_by_switch):
            add(rv[1], f.expr_of_op(rv[2]), f.expr_of_op(rv[3]), ln)
    for bi, t in f.calls(lambda t: t['fn'].rsplit('::', 1)[-1] in ('lt', 'le', 'gt', 'ge') and ('PartialOrd' in t['fn'] or 'cmp::impls' in t['fn'])):
        d = t['d']
        if len(d) == 1 and d[0] in used_by_switch:
            continue
        if len(t['a']) == 2:
            add({'lt': 'Lt', 'le': 'Le', 'gt': 'Gt', 'ge': 'Ge'}[t['fn'].rsplit('::', 1)[-1]], f.expr_of_op(t['a'][0]), f.expr_of_op(t['a'][1]), t['ln'])
    return out


def census(F, prefixes):
    rows = {}
    for name, f in sorted(F.fns.items()):
        if '::tests::' in name or not name.startswith(prefixes):
            continue
        for key, part, ln in comparisons(F, f):
            rows.setdefault((name, key), []).append((part, ln))
    return rows


def load_table():
    with open(TABLE) as fh:
        return json.load(fh)


def check(ctx, rid, prop):
    """check the reviewed boundaries assigned to `prop`"""
    r = ctx.rule(rid, 'TABLE', 'boundary census: the reviewed ordering comparisons behind this property split at the reviewed side of equality')
    F = ctx.facts
    tab = [e for e in load_table() if prop in e['props']]
    found = 0
    cache = {}
    for e in tab:
        f = F.fn(e['fn'])
        if f is None:
            r.ok('absent|%s|%s' % (e['fn'], e['key']), '', 'function %s not present in this configuration (not a violation)' % e['fn'])
            continue
        if e['fn'] not in cache:
            cache[e['fn']] = comparisons(F, f)
        got = sorted(p for k, p, ln in cache[e['fn']] if k == e['key'])
        lines = [ln for k, p, ln in cache[e['fn']] if k == e['key']]
        if not got:
            if e.get('required') and any(t['fn'] in F.new_fns for bi, t in f.calls()):
                r.ok('absent|%s|%s' % (e['fn'], e['key']), f.file, 'comparison not found, the function now calls a new helper -- not compared; %s' % e['why'])
            elif e.get('required'):
                r.bad('missing|%s|%s' % (e['fn'].replace('proto::streams::', ''), e['key']), f.file, '%s no longer compares %s: %s' % (e['fn'].split('::')[-1], e['key'], e['why']))
                found += 1
            else:
                r.ok('absent|%s|%s' % (e['fn'], e['key']), f.file, 'comparison not found (restructured?) — not a violation; %s' % e['why'])
            continue
        found += 1
        want = sorted(e['partitions'])
        ok = got == want if len(got) == len(want) else set(got) <= set(want)
        r.check(ok, 'boundary|%s|%s' % (e['fn'].replace('proto::streams::', ''), e['key']), '%s:%s' % (f.file, lines[0]),
                '%s: %s splits at %s (reviewed: %s). %s' % (e['fn'].split('::')[-1], e['key'], '/'.join(got), '/'.join(want), e['why']))
    r.stat('entries', len(tab))
    r.floor(found, int(len(tab) * 0.8) if len(tab) >= 5 else 0, 'reviewed boundaries found in the tree')
    return r


# ------------------------------------------------------------------------------------------------ amount census

AMOUNTS = os.path.join(HERE, 'rules', 'amounts.json')


def amount_sites(F, f, callee, idx=1):
    """[(atoms of argument #idx as a '+'-joined string, line)] per call of `callee` in f"""
    out = []
    for bi, t in f.calls_to(callee):
        if t['fn'] != callee:
            continue  # reached through a new helper: the argument is the helper's, not comparable
        if len(t['a']) <= idx:
            continue
        at = operand_atoms(f.expr_of_op(t['a'][idx]))
        out.append(('+'.join(sorted(at)) or '-', t['ln']))
    return out


def check_amounts(ctx, rid, prop):
    """reviewed provenance of the byte / window amounts passed between the flow-control primitives"""
    r = ctx.rule(rid, 'FLOW', 'amount census: each reviewed flow-control / budget call receives the amount derived from the reviewed source (wrong-variable edits change the source)')
    F = ctx.facts
    with open(AMOUNTS) as fh:
        tab = [e for e in json.load(fh) if prop in e['props']]
    found = 0
    for e in tab:
        f = F.fn(e['caller'])
        if f is None:
            r.ok('absent|%s|%s' % (e['caller'], e['callee']), '', 'caller not present in this configuration (not a violation)')
            continue
        got = sorted(a for a, ln in amount_sites(F, f, e['callee'], e.get('arg', 1)))
        lines = [ln for a, ln in amount_sites(F, f, e['callee'], e.get('arg', 1))]
        if not got:
            r.ok('absent|%s|%s' % (e['caller'], e['callee']), f.file, 'call not found (restructured?) — not a violation')
            continue
        found += 1
        want = sorted(e['atoms'])
        ok = got == want if len(got) == len(want) else set(got) <= set(want)
        r.check(ok, 'amount|%s|%s%s' % (e['caller'].replace('proto::streams::', ''), e['callee'].replace('proto::streams::', ''), ('#%d' % e['arg']) if e.get('arg', 1) != 1 else ''), '%s:%s' % (f.file, lines[0]),
                '%s passes %s to %s (reviewed: %s). %s' % (e['caller'].split('::')[-1] if 'closure' not in e['caller'] else e['caller'].split('::')[-2] + '::{closure}', got, e['callee'].split('::')[-1], want, e['why']))
    r.stat('entries', len(tab))
    r.floor(found, int(len(tab) * 0.8) if len(tab) >= 5 else 0, 'reviewed amount sites found in the tree')
    return r


# ------------------------------------------------------------------------------------------------ call census

CALLS = os.path.join(HERE, 'rules', 'calls.json')


def _matches(t, callee, ga):
    if not (t['fn'] == callee or t['fn'].endswith('::' + callee) or t['fn'].endswith(callee)):
        return False
    if ga and not any(g == ga or g.endswith('::' + ga) or g.rsplit('::', 1)[-1].split('<')[0] == ga for g in t['ga']):
        return False
    return True


def _family(F, caller):
    return [f for n, f in F.fns.items() if n == caller or n.startswith(caller + '::{closure')]


def reaches(F, t, callee, ga, cache, hops=3):
    """the call `t` is a call of `callee`, or of a function (or closure argument) from which `callee` is reachable"""
    if _matches(t, callee, ga):
        return True
    starts = [t['fn']] + list(t.get('cls') or [])
    key = (tuple(starts), callee, ga)
    if key in cache:
        return cache[key]
    seen = set(starts)
    frontier = list(starts)
    ok = False
    for _ in range(hops):
        nxt = []
        for n in frontier:
            f = F.fns.get(n)
            if f is None:
                continue
            for bi, t2 in f.calls():
                if _matches(t2, callee, ga):
                    ok = True
                for m in [t2['fn']] + list(t2.get('cls') or []):
                    if m not in seen and m in F.fns:
                        seen.add(m)
                        nxt.append(m)
        if ok:
            break
        frontier = nxt
    cache[key] = ok
    return ok


def check_calls(ctx, rid, prop):
    """reviewed must-call facts: `caller` reaches `callee` (mode some) or passes it on every non-error path (mode all)"""
    r = ctx.rule(rid, 'PASS', 'call census: reviewed steps are still taken — on every non-error path (all) or at least somewhere (some) — directly or through helpers')
    F = ctx.facts
    with open(CALLS) as fh:
        tab = [e for e in json.load(fh) if prop in e['props']]
    cache = {}
    found = 0
    for e in tab:
        fam = _family(F, e['caller'])
        if not fam:
            r.ok('absent|%s' % e['caller'], '', 'caller not present in this configuration (not a violation)')
            continue
        found += 1
        key = 'call|%s|%s%s' % (e['caller'].replace('proto::streams::', ''), e['callee'], ('<' + e['ga'] + '>') if e.get('ga') else '')
        root = F.fns[e['caller']] if e['caller'] in F.fns else fam[0]
        if e['mode'] == 'some':
            ok = any(reaches(F, t, e['callee'], e.get('ga'), cache) for f in fam for bi, t in f.calls())
            r.check(ok, key, root.file, '%s %s %s. %s' % (e['caller'].split('::')[-1], 'reaches' if ok else 'NO LONGER reaches', e['callee'], e['why']))
        else:
            f = root
            sites = set(bi for bi, t in f.calls() if reaches(F, t, e['callee'], e.get('ga'), cache))
            try:
                exits, ins, parent = core.scan(f, 0, None, lambda us, bi, t: 1 if bi in sites else us)
            except core.Cap as ex:
                r.bad(key + '|cap', f.file, str(ex))
                continue
            bad = [(bi, rc, st) for (bi, us, rc, st) in exits if us != 1 and not (rc == 'Err' or rc.startswith('Err') or rc.startswith('Ready:Err') or rc == 'Pending')]
            wit = None
            if bad:
                wit = core.compress_path(f, [x['bb'] for x in core.witness_path(f, parent, bad[0][0], bad[0][2])])
            r.check(bool(sites) and not bad, key, f.file,
                    '%s %s %s. %s' % (e['caller'].split('::')[-1], 'passes' if sites and not bad else 'can return without passing', e['callee'], e['why']), witness=wit)
    r.stat('entries', len(tab))
    r.floor(found, int(len(tab) * 0.8) if len(tab) >= 5 else 0, 'reviewed callers found in the tree')
    return r


# ------------------------------------------------------------------------------------------------ guard census

GUARDS = os.path.join(HERE, 'rules', 'guards.json')


def action_sites(F, f, action):
    """blocks of `f` performing the action: 'call:<suffix>[<ga>]' | 'err' (a block that builds an Err / calls an error constructor)"""
    if action.startswith('call:'):
        spec = action[5:]
        ga = None
        if '<' in spec:
            spec, ga = spec[:-1].split('<', 1)
        return [bi for bi, t in f.calls() if _matches(t, spec, ga)]
    if action.startswith('write:'):
        owner, field = action[6:].rsplit('.', 1)
        return sorted(set(bi for bi, si, pl, rv, ln in f.stmts() if core.write_target(f, pl) == (owner, field)))
    if action.startswith('ret:'):
        # blocks that store a value of the given class (Pending, None, Ready, Some, ...) into the return place
        want = action[4:]
        out = []
        for bi, si, pl, rv, ln in f.stmts():
            if len(pl) == 1 and pl[0] == 0:
                rc = core._ret_class_rv(rv, f)
                if rc == want or (':' not in want and rc.split(':')[0] == want):
                    out.append(bi)
        return sorted(set(out))
    if action.startswith('errk:'):
        return sorted(bi for bi, k in error_kind_sites(F, f) if k == action[5:])
    if action == 'err':
        out = set()
        for bi, si, pl, rv, ln in f.stmts():
            if rv[0] == 'aggr' and rv[1] == 'adt' and str(rv[2]).endswith('::Err'):
                out.add(bi)
        for bi, t in f.calls(lambda t: t['fn'].startswith('proto::error::Error::library_')):
            out.add(bi)
        return sorted(out)
    return []


def _vocab(p):
    """kind of outcome name: boolean, comparison region, or match arms -- a test rewritten from one kind to another
    (map_or(false, ..) -> match) is not comparable, an inverted test stays within its kind"""
    weak = p.startswith('~')
    p = p.lstrip('~')
    return ('~' if weak else '') + ('b' if p in ('T', 'F') else ('c' if p in ('eq', 'ne', 'lt', 'le', 'gt', 'ge') else 'v'))


def _terms_included(want, got):
    """multiset inclusion of controlling terms; a term is 'atoms@outcome' -- equal atoms match when the outcomes are equal
    or one side has none (an outcome the analysis could not name claims nothing) or they are of different kinds"""
    # a test repeated along a path with the same outcome (`if is_connect {..} .. if is_connect {..}`) is one fact: identical
    # terms count once on both sides
    want = sorted(set(want))
    got = sorted(set(got))
    for w in [w for w in want if w.startswith('!')]:
        # (another, still reviewed test of the same atoms on the merged site is not the dropped one)
        if any(g.partition('@')[0] == w[1:] and g.partition('@')[2] and not g.partition('@')[2].startswith('~') and g not in want for g in got):
            return False
    want = [w for w in want if not w.startswith('!')]
    rest = list(got)
    pending = []
    # a term that names nothing but anonymous locals (`var:bool`) cannot be recognised again after any rewrite: it claims nothing
    def anonymous(a):
        return a.startswith(('var', 'upvar:var'))
    # (a tuple field -- `field:0` -- is the payload of some enum: when the test is which *std* variant an Option / Result /
    # Poll / ControlFlow in it is, it comes and goes with `?`, `ok_or`, `ready!`; a comparison of it, or a match on one of
    # h2's own enums, is a decision of the code: `Error::Reset(_, _, initiator)` .. `initiator == Remote`)
    _STDV = {'Some', 'None', 'Ok', 'Err', 'Continue', 'Break', 'Ready', 'Pending'}

    def anonymous_term(w):
        atoms, _, o = w.partition('@')
        parts = atoms.split('&')
        if all(anonymous(a) for a in parts):
            return True
        if all(anonymous(a) or (a.startswith('field:') and a[6:].isdigit()) for a in parts):
            return not o or set(o.lstrip('~').split('/')) <= _STDV
        return False
    anon = [w for w in want if anonymous_term(w)]
    want = [w for w in want if w not in anon]
    # ... unless the same anonymous test is still there with the *opposite* outcome only (`if overflow` -> `if !overflow`):
    # a flag that was rewritten into something nameable simply has no counterpart and is skipped
    for w in anon:
        wa, _, wp = w.partition('@')
        same = [g for g in got if g.partition('@')[0] == wa]
        if wp and same and w not in same and all(_COMPLEMENT.get(wp.lstrip('~')) == g.partition('@')[2].lstrip('~') for g in same):
            return False
    # identical tests count once -- but a reviewed test whose *opposite* outcome now also governs the site (one of several
    # `if f(x).is_break() { break }` arms turned around: the site still runs after `F` of the others) is a changed test
    for w in want:
        wa, _, wp = w.partition('@')
        comp = _COMPLEMENT.get(wp.lstrip('~'))
        if comp:
            c = wa + '@' + ('~' if wp.startswith('~') else '') + comp
            if c in got and c not in want:
                return False
    for w in want:
        if w in rest:
            rest.remove(w)
        else:
            pending.append(w)
    for w in pending:
        wa, _, wp = w.partition('@')
        hit = None
        for g in rest:
            ga, _, gp = g.partition('@')
            if ga == wa and (not wp or not gp or _vocab(wp) != _vocab(gp)):
                # (a strong outcome against the weak *opposite* one is not "another way of writing it": the site used to run
                # only after this outcome and is now certain after the other)
                # (the other direction is a split: a site reachable after both outcomes, of which one piece now runs after one)
                if wp and gp and not wp.startswith('~') and gp.startswith('~') and _vocab(wp) == _vocab(gp).lstrip('~') and _COMPLEMENT.get(wp) == gp.lstrip('~') \
                        and not any(g2.partition('@')[0] == wa and g2.partition('@')[2].lstrip('~') == wp.lstrip('~') for g2 in got):
                    continue
                hit = g
                break
            # match arms: the reviewed arms are among the arms under which the site runs now
            if ga == wa and _vocab(wp) == 'v' and _vocab(gp) == 'v' and set(wp.split('/')) <= set(gp.split('/')):
                hit = g
                break
        if hit is None and wp.lstrip('~') == 'ne':
            # `x != K` is implied by `x == J` for another constant J
            wparts = wa.split('&')
            wk = [a for a in wparts if a.startswith('const:')]
            if len(wk) == 1:
                wrest = sorted(a for a in wparts if a != wk[0])
                for g in got:
                    ga, _, gp = g.partition('@')
                    gparts = ga.split('&')
                    gk = [a for a in gparts if a.startswith('const:')]
                    if gp.lstrip('~') == 'eq' and len(gk) == 1 and gk[0] != wk[0] and sorted(a for a in gparts if a != gk[0]) == wrest:
                        hit = '__implied__'
                        break
            if hit == '__implied__':
                continue
        if hit is None:
            return False
        rest.remove(hit)
    return True


def _sites_included(want, got):
    pool = [list(x) for x in got]
    for w in sorted(want, key=lambda x: -len(x)):
        hit = None
        for k, g in enumerate(pool):
            if _terms_included(w, g):
                if hit is None or len(g) < len(pool[hit]):
                    hit = k
        if hit is None:
            return False
        pool.pop(hit)
    return True


_COMPLEMENT = {'T': 'F', 'F': 'T', 'eq': 'ne', 'ne': 'eq', 'lt': 'ge', 'ge': 'lt', 'le': 'gt', 'gt': 'le'}


_VCOMPLEMENT = {'Ok': 'Err', 'Err': 'Ok', 'Some': 'None', 'None': 'Some', 'Continue': 'Break', 'Break': 'Continue', 'Ready': 'Pending', 'Pending': 'Ready'}


def _flipped_site(want, got):
    """(reviewed site, found site, term) when a reviewed site that has no counterpart any more reappears with exactly one
    of its tests on the complementary outcome (same atoms, same strength; every other reviewed term still there) -- an
    inverted test, whatever else changed in the function"""
    pool = [list(x) for x in got]
    left = []
    for w in sorted(want, key=lambda x: -len(x)):
        hit = None
        for k, g in enumerate(pool):
            if _terms_included(w, g) and (hit is None or len(g) < len(pool[hit])):
                hit = k
        if hit is None:
            left.append(w)
        else:
            pool.pop(hit)
    for w in left:
        for g in pool:
            for t in w:
                atoms, _, o = t.partition('@')
                weak = '~' if o.startswith('~') else ''
                comp = _COMPLEMENT.get(o.lstrip('~')) or _VCOMPLEMENT.get(o.lstrip('~'))
                if not comp or all(a.startswith(('var', 'upvar:var')) for a in atoms.split('&')) and False:
                    continue
                if atoms + '@' + weak + comp in g and t not in g and _terms_included([x for x in w if x != t], g):
                    return w, g, t
    return None


def _merge_complementary(sites):
    """two reviewed sites whose conditions contain one test with opposite outcomes (`if a {x; y} else {z; y}`: y under a@T
    and under a@F; `if o {return E}; if v > M {return E}`: E under o@T and under o@F & v > M) may legitimately become one
    site that no longer depends on that test (y hoisted out of the if/else; the two exits joined by `||`): the merged
    site keeps every other term of both"""
    sites = [sorted(x) for x in sites]
    stages = []
    changed = True
    while changed:
        changed = False
        stages.append([list(x) for x in sites])
        for i in range(len(sites)):
            for j in range(i + 1, len(sites)):
                a, b = collections.Counter(sites[i]), collections.Counter(sites[j])
                comp = None
                # match arms: `x@A` and `x@B` with otherwise equal terms are one site under `x@A/B`
                # (per-arm assignments replaced by one assignment of a `match` expression)
                da, db = list((a - b).elements()), list((b - a).elements())
                if len(da) == 1 and len(db) == 1:
                    xa, _, pa = da[0].partition('@')
                    xb, _, pb = db[0].partition('@')
                    if xa == xb and pa and pb and _vocab(pa) == 'v' and _vocab(pb) == 'v':
                        union = '/'.join(sorted(set(pa.split('/')) | set(pb.split('/'))))
                        merged = sorted(list((a & b).elements()) + [xa + '@' + union])
                        sites = [s2 for k, s2 in enumerate(sites) if k not in (i, j)] + [merged]
                        changed = True
                        break
                for ta in a:
                    xa, _, pa = ta.partition('@')
                    if not pa:
                        continue
                    tb = xa + '@' + _COMPLEMENT.get(pa.lstrip('~'), '?')
                    for cand in (tb, xa + '@~' + _COMPLEMENT.get(pa.lstrip('~'), '?')):
                        if cand in b:
                            comp = (ta, cand)
                if comp is None:
                    continue
                a[comp[0]] -= 1
                b[comp[1]] -= 1
                # the merged site no longer depends on the test: `!atoms` = "not decided by a test of these atoms any more" (it may
                # still mention them weakly -- `if a || b {E}` -- but a site that runs strictly after one outcome of the test
                # is one of the two reviewed sites with its partner gone or changed, not their union)
                merged = sorted(list((a | b).elements()) + ['!' + comp[0].partition('@')[0]])
                sites = [s2 for k, s2 in enumerate(sites) if k not in (i, j)] + [merged]
                changed = True
                break
            if changed:
                break
    stages.append([list(x) for x in sites])
    return stages


def _split_arms(sites):
    """a reviewed site under the arms `x@A/B` may have been split into one site per arm (`A | B => e` written as two arms)"""
    out = []
    for w in sites:
        unions = [t for t in w if '@' in t and _vocab(t.partition('@')[2]) == 'v' and '/' in t.partition('@')[2]]
        if len(unions) != 1:
            out.append(list(w))
            continue
        u = unions[0]
        atoms, _, arms = u.partition('@')
        rest = [t for t in w if t is not u]
        for a in arms.split('/'):
            out.append(sorted(rest + ['%s@%s' % (atoms, a)]))
    return out


def error_kind_sites(F, f):
    """[(block, kind)] for every `Err(..)` construction / error constructor call whose payload can be named:
    the enum variant (`UserError::InactiveStreamId` -> 'InactiveStreamId', through `.into()`), or the constructor and its
    constant reason (`Error::library_go_away(PROTOCOL_ERROR)` -> 'library_go_away:1')"""
    out = []

    def name_of(e, depth=0):
        x = strip(e)
        if depth > 4:
            return None
        if x[0] == 'aggr' and x[1] == 'adt':
            v = str(x[2]).split('::')[-1]
            if x[3] if len(x) > 3 else None:
                inner = name_of(x[3][0], depth + 1) if isinstance(x[3], (list, tuple)) and x[3] else None
                return '%s:%s' % (v, inner) if inner else v
            return v
        if x[0] == 'call':
            short = x[1].split('::')[-1]
            if short in ('into', 'from') and x[2]:
                return name_of(x[2][0], depth + 1)
            ks = [str(c[1]) for a in x[2] for c in core.consts_in(a) if isinstance(c[1], int)][:1]
            return short + (':' + ks[0] if ks else '')
        if x[0] == 'const' and len(x) > 2:
            return str(x[2]).split('::')[-1][:40]
        return None
    for bi, si, pl, rv, ln in f.stmts():
        if rv[0] == 'aggr' and rv[1] == 'adt' and str(rv[2]).endswith('::Err') and rv[3]:
            k = name_of(f.expr_of_op(rv[3][0]))
            if k:
                out.append((bi, k))
    return out


def _err_combinators(F, f):
    """control terms of the calls of Option / Result combinators that can produce an Err out of a test (`o.ok_or(E)`)"""
    return [sorted(core.control_terms(F, f, bi)) for bi, t in f.calls(lambda t: t['fn'].startswith(('std::option::Option::ok_or', 'std::result::Result::or', 'std::option::Option::map_or', 'std::result::Result::map_or')))]


def _ret_combinators(F, f):
    """control terms of the places where the answer of `f` is computed by a call or a combinator rather than built in place"""
    comb = []
    for bi, si, pl, rv, ln in f.stmts():
        if len(pl) == 1 and pl[0] == 0:
            rc = core._ret_class_rv(rv, f)
            if rc == '?' or 'call' in rc or (':' in rc and rc.split(':')[1][:1].islower()):
                comb.append(sorted(core.control_terms(F, f, bi)))
    for bi, t in f.calls(lambda t: t['d'] == [0]):
        comb.append(sorted(core.control_terms(F, f, bi)))
    return comb


def check_guards(ctx, rid, prop):
    """reviewed guards: the set of conditions under which a reviewed action executes (dropping or adding a conjunct changes it)"""
    r = ctx.rule(rid, 'GUARD', 'guard census: each reviewed action executes under exactly the reviewed set of tests (a dropped or added conjunct changes the set)')
    F = ctx.facts
    with open(GUARDS) as fh:
        tab = [e for e in json.load(fh) if prop in e['props']]
    found = 0
    for e in tab:
        f = F.fn(e['fn'])
        if f is None:
            r.ok('absent|%s|%s' % (e['fn'], e['action']), '', 'function not present in this configuration (not a violation)')
            continue
        sites = action_sites(F, f, e['action'])
        if not sites:
            if e.get('required') and e['action'].startswith('call:'):
                spec = e['action'][5:]
                ga = None
                if '<' in spec:
                    spec, ga = spec[:-1].split('<', 1)
                cache = {}
                via = set(t['fn'] for g2 in _family(F, e['fn']) for bi, t in g2.calls() if reaches(F, t, spec, ga, cache)) - set(e.get('via_before', []))
                if via:
                    r.ok('absent|%s|%s' % (e['fn'], e['action']), f.file, 'action moved into a helper (still reached) — guard not compared')
                else:
                    found += 1
                    r.bad('missing|%s|%s' % (e['fn'].replace('proto::streams::', ''), e['action']), f.file, '%s no longer performs %s. %s' % (e['fn'].split('::')[-1], e['action'], e['why']))
                continue
            r.ok('absent|%s|%s' % (e['fn'], e['action']), f.file, 'action not found (restructured?) — not a violation')
            continue
        found += 1
        ignore = set(e.get('ignore', []))
        got = sorted(core.control_terms(F, f, bi) for bi in sites)
        prof = 'rel' if str(getattr(F, 'config', '')).endswith('-rel') else 'dbg'
        want = sorted(sorted(x) for x in e['sites'][prof])
        # every reviewed site (as its multiset of controlling terms) must still exist; additional sites are new behaviour, not a violation
        # (a site may acquire further controlling tests — e.g. a new early error exit above it — without violating anything:
        #  the reviewed terms must be included in the site's terms)
        ok = _sites_included(want, got)
        # the tolerances below explain reviewed sites that are *gone* (merged, folded into a combinator, moved into a helper);
        # none of them may explain a site that is still there with one of its tests turned around
        flipped = None if ok else _flipped_site(want, got)
        if not ok and not flipped:
            ok = any(_sites_included(stage, got) for stage in _merge_complementary(want)) or _sites_included(_split_arms(want), got)
        if flipped:
            pass
        elif not ok and e['action'] == 'err':
            # `match o { Some(v) => Ok(v), None => Err(E) }` rewritten as `o.ok_or(E)`: the test moved into the combinator,
            # which is called under the remaining (outer) tests of the reviewed site
            comb = _err_combinators(F, f)
            if comb:
                pseudo = [list(w) for w in want if any(_terms_included(c, w) for c in comb)]
                ok = _sites_included(want, got + pseudo)
        if not ok and not flipped and e['action'].startswith('ret:'):
            # `match o { Some(r) => Ready(Some(Ok(r))), None => Ready(None) }` rewritten as `Ready(o.map(Ok))`: the answer is
            # computed by a combinator, under the remaining (outer) tests of the reviewed site
            comb = _ret_combinators(F, f)
            if comb:
                pseudo = [list(w) for w in want if any(_terms_included(c, w) for c in comb)]
                ok = _sites_included(want, got + pseudo)
        if not ok and not flipped:
            # a test moved into a small helper: compare the flattened atom sets, looking through helpers that are not
            # themselves reviewed atoms (the per-switch structure is lost across the helper boundary)
            def coarse(a):
                return a.startswith(('call:', 'field:'))

            def flat(sets):
                return sorted(sorted(set(a for term in x for a in term.split('@')[0].split('&') if coarse(a))) for x in sets)
            keep = set(a for x in want for term in x for a in term.split('@')[0].split('&'))
            got2 = sorted(sorted(a for a in core.expand_atoms(F, set(a for term in x for a in term.split('@')[0].split('&') if coarse(a)), keep) if coarse(a)) for x in got)
            if got2 == flat(want) and got2 != flat(got):
                ok = True
        r.check(ok, 'guard|%s|%s' % (e['fn'].replace('proto::streams::', ''), e['action']), f.loc(sites[0]),
                '%s: %s executes under %s (reviewed: %s). %s' % (e['fn'].split('::')[-1], e['action'], got, want, e['why']))
    r.stat('entries', len(tab))
    r.floor(found, int(len(tab) * 0.8) if len(tab) >= 5 else 0, 'reviewed guarded actions found in the tree')
    return r


# ------------------------------------------------------------------------------------------------ write census

WRITES = os.path.join(HERE, 'rules', 'writes.json')


def write_sites(F, fn_name, owner, field):
    """statements in `fn_name` (and its closures) that assign the field, incl. compound assignments"""
    out = []
    for f in _family(F, fn_name):
        for bi, si, pl, rv, ln in f.stmts():
            if core.write_target(f, pl) == (owner, field):
                out.append((f, bi, ln))
    return out


def write_values(F, fn_name, owner, field):
    """constant values (ints / bools as 0,1; '?' when not constant) assigned to the field in fn_name and its closures"""
    out = []
    for f in _family(F, fn_name):
        for bi, si, pl, rv, ln in f.stmts():
            if core.write_target(f, pl) == (owner, field):
                c = core.op_const(rv[1]) if rv[0] == 'use' else None
                out.append(c[0] if c is not None and isinstance(c[0], int) else '?')
    return [str(x) for x in out]


def check_writes(ctx, rid, prop):
    """reviewed state updates: the function still assigns the field at (at least) the reviewed number of sites"""
    r = ctx.rule(rid, 'PAIR', 'write census: each reviewed bookkeeping update is still performed (a dropped assignment lowers the site count)')
    F = ctx.facts
    with open(WRITES) as fh:
        tab = [e for e in json.load(fh) if prop in e['props']]
    found = 0
    for e in tab:
        fam = _family(F, e['fn'])
        if not fam:
            r.ok('absent|%s|%s' % (e['fn'], e['field']), '', 'function not present in this configuration (not a violation)')
            continue
        found += 1
        owner, field = e['field'].rsplit('.', 1)
        sites = write_sites(F, e['fn'], owner, field)
        ok = len(sites) >= e['sites']
        if ok and e.get('values') is not None:
            vals = sorted(write_values(F, e['fn'], owner, field))
            need = collections.Counter(e['values'])
            have = collections.Counter(vals)
            ok = not (need - have)
            r.check(ok, 'write-value|%s|%s' % (e['fn'].replace('proto::streams::', ''), field), fam[0].file,
                    '%s assigns %s the constants %s (reviewed: %s). %s' % (e['fn'].split('::')[-1], field, vals, e['values'], e['why']))
            continue
        r.check(ok, 'write|%s|%s' % (e['fn'].replace('proto::streams::', ''), field), fam[0].file,
                '%s assigns %s at %d site(s) (reviewed: %d). %s' % (e['fn'].split('::')[-1], field, len(sites), e['sites'], e['why']))
    r.stat('entries', len(tab))
    r.floor(found, int(len(tab) * 0.8) if len(tab) >= 5 else 0, 'reviewed writers found in the tree')
    return r


# ------------------------------------------------------------------------------------------------ error-code census

CODES = os.path.join(HERE, 'rules', 'codes.json')
REASONS = {0: 'NO_ERROR', 1: 'PROTOCOL_ERROR', 2: 'INTERNAL_ERROR', 3: 'FLOW_CONTROL_ERROR', 4: 'SETTINGS_TIMEOUT', 5: 'STREAM_CLOSED', 6: 'FRAME_SIZE_ERROR',
           7: 'REFUSED_STREAM', 8: 'CANCEL', 9: 'COMPRESSION_ERROR', 10: 'CONNECT_ERROR', 11: 'ENHANCE_YOUR_CALM', 12: 'INADEQUATE_SECURITY', 13: 'HTTP_1_1_REQUIRED'}


def error_codes(F):
    """(function, constructor) -> sorted list of constant reason codes passed at its error-construction sites"""
    import collections
    rows = collections.defaultdict(list)
    for name, f in F.fns.items():
        if '::tests::' in name:
            continue
        for bi, t in f.calls():
            fn = t['fn']
            short_ = fn.rsplit('::', 1)[-1]
            if not (fn.startswith('proto::error::Error::library_') or fn.endswith('frame::reset::Reset::new') or fn.endswith('frame::go_away::GoAway::new')
                    or (short_ in ('go_away_now', 'go_away_now_data', 'send_reset', 'go_away') and fn.startswith('proto::'))):
                continue
            for a in t['a']:
                e = strip(f.expr_of_op(a))
                if e[0] == 'const' and isinstance(e[1], int) and len(e) > 3 and 'Reason' in str(e[3]):
                    rows[(name.split('::{closure')[0], short_)].append(REASONS.get(e[1], str(e[1])))
    return {k: sorted(v) for k, v in rows.items()}


def check_codes(ctx, rid, prop):
    r = ctx.rule(rid, 'TABLE', 'error-code census: every reviewed error-construction site still passes its reviewed HTTP/2 error code')
    F = ctx.facts
    with open(CODES) as fh:
        tab = [e for e in json.load(fh) if prop in e['props']]
    got = error_codes(F)
    found = 0
    import collections
    for e in tab:
        g = got.get((e['fn'], e['ctor']))
        if g is None:
            r.ok('absent|%s|%s' % (e['fn'], e['ctor']), '', 'no such error site in this configuration (restructured?) — not a violation')
            continue
        found += 1
        need = collections.Counter(e['codes'])
        have = collections.Counter(g)
        missing = need - have
        ok = not missing
        f = F.fn(e['fn'])
        r.check(ok, 'code|%s|%s' % (e['fn'].replace('proto::streams::', ''), e['ctor']), f.file if f else '',
                '%s: %s with %s (reviewed: %s)%s. %s' % (e['fn'].split('::')[-1], e['ctor'], dict(have), dict(need), '' if ok else ' — %s no longer sent' % dict(missing), e['why']))
    r.stat('entries', len(tab))
    r.floor(found, int(len(tab) * 0.8) if len(tab) >= 5 else 0, 'reviewed error sites found in the tree')
    return r


# ------------------------------------------------------------------------------------------------ initialiser census

INITS = os.path.join(HERE, 'rules', 'inits.json')


def init_atoms(F, f, adt):
    """field -> '+'-joined operand atoms, for every aggregate construction of `adt` in f (list per field)"""
    out = {}
    a = F.adts.get(adt)
    if not a:
        return out
    names = [x[0] for x in a['variants'][0]['fields']]
    for bi, si, pl, rv, ln in f.stmts():
        if rv[0] == 'aggr' and rv[1] == 'adt' and core.norm(rv[2]) == adt:
            for nm, o in zip(names, rv[3]):
                out.setdefault(nm, []).append('+'.join(sorted(operand_atoms(f.expr_of_op(o)))) or '-')
    return out


def check_inits(ctx, rid, prop):
    r = ctx.rule(rid, 'FLOW', 'initialiser census: reviewed configuration / limit fields are still initialised from their reviewed source (plumbing of builder settings and protocol defaults)')
    F = ctx.facts
    with open(INITS) as fh:
        tab = [e for e in json.load(fh) if prop in e['props']]
    found = 0
    cache = {}
    for e in tab:
        f = F.fn(e['fn'])
        if f is None:
            r.ok('absent|%s|%s' % (e['fn'], e['field']), '', 'function not present in this configuration (not a violation)')
            continue
        k = (e['fn'], e['adt'])
        if k not in cache:
            cache[k] = init_atoms(F, f, e['adt'])
        got = cache[k].get(e['field'])
        if not got:
            r.ok('absent|%s|%s' % (e['fn'], e['field']), f.file, 'construction not found (restructured?) — not a violation')
            continue
        found += 1
        ok = all(g == e['atoms'] for g in got)
        r.check(ok, 'init|%s|%s.%s' % (e['fn'].replace('proto::streams::', ''), e['adt'].rsplit('::', 1)[-1], e['field']), f.file,
                '%s initialises %s.%s from %s (reviewed: %s). %s' % (e['fn'].split('::')[-1], e['adt'].rsplit('::', 1)[-1], e['field'], got, e['atoms'], e['why']))
    r.stat('entries', len(tab))
    r.floor(found, int(len(tab) * 0.8) if len(tab) >= 5 else 0, 'reviewed initialisers found in the tree')
    return r


# ------------------------------------------------------------------------------------------------ layering / namesakes

def check_layering(ctx, rid):
    """send side and receive side never touch each other's window or state predicates; trivial getters and the notify / wait
    primitives touch the field they are named after (wrong-sibling edits: send_flow for recv_flow, max_recv_streams for
    max_send_streams, recv_task for send_task)"""
    r = ctx.rule(rid, 'WHO', 'layering and namesakes: Recv code uses recv_flow / is_recv_*, Send and Prioritize code use send_flow / is_send_*; getters and notify primitives touch their namesake field')
    F = ctx.facts
    S = 'proto::streams::'
    ST = S + 'stream::Stream'
    n = 0
    for name, f in sorted(F.fns.items()):
        if '::tests::' in name or name.endswith('::fmt'):
            continue
        base = name.split('::{closure')[0]
        side = 'recv' if base.startswith(S + 'recv::Recv::') else ('send' if base.startswith((S + 'send::Send::', S + 'prioritize::Prioritize::')) else None)
        if side is None:
            continue
        n += 1
        foreign = 'send_flow' if side == 'recv' else 'recv_flow'
        hit = None
        for bi, si, pl, rv, ln in f.stmts():
            if any(o == ST and fl == foreign for (o, fl) in core.place_fields(pl)) or (rv[0] not in ('setdiscr', 'other') and any(x[0] == 'field' and x[2] == ST and x[3] == foreign for x in walk(f.expr_of_rvalue(rv)))):
                hit = ln
        for bi, t in f.calls():
            if t.get('exp') and any(k in t['exp'] for k in ('trace', 'debug', 'event', 'span')):
                continue
            for a in t['a']:
                if any(x[0] == 'field' and x[2] == ST and x[3] == foreign for x in walk(f.expr_of_op(a))):
                    hit = t['ln']
            if t['fn'].startswith(S + 'state::State::is_'):
                p = t['fn'].rsplit('::', 1)[-1]
                if (side == 'recv' and p.startswith('is_send_')) or (side == 'send' and p.startswith('is_recv_')):
                    hit = t['ln']
                    foreign = p
        if hit is not None:
            r.bad('layer|%s|%s' % (base.replace(S, ''), foreign), '%s:%s' % (f.file, hit), '%s (%s side) touches %s — the other direction\'s window / state predicate' % (base.split('::')[-1], side, foreign))
    r.ok('layer|all', '', '%d send-side / receive-side bodies touch only their own direction' % n)
    r.floor(n, 100, 'send-side / receive-side bodies examined')
    # namesake getters
    g = 0
    for name, f in sorted(F.fns.items()):
        if not name.startswith(S) or 'closure' in name or '::tests::' in name or f.argc != 1 or len([b for b in f.blocks if not b['cu']]) > 3:
            continue
        e = f.ret_expr()
        if e is None:
            continue
        x = strip(e)
        if x[0] != 'field' or strip(x[1]) != ('arg', 1):
            continue
        own = name.rsplit('::', 1)[-1]
        a = F.adts.get(x[2])
        names = [y[0] for y in a['variants'][0]['fields']] if a else []
        if own in names:
            g += 1
            r.check(x[3] == own, 'getter|%s' % name.replace(S, ''), f.file, '%s returns field %s' % (name.replace(S, ''), x[3]))
    r.floor(g, 10, 'namesake getters')
    # delegating namesakes: a small function named N that forwards to exactly one h2 function forwards to the one named N
    # when its target type has one (Streams::max_send_streams -> Counts::max_send_streams, not its sibling max_recv_streams)
    H2 = ('proto::', 'frame::', 'codec::', 'hpack::', 'client::', 'server::', 'share::')
    by_type = {}
    for nm in F.fns:
        if 'closure' in nm or '::tests::' in nm:
            continue
        owner, _, short_ = nm.rpartition('::')
        by_type.setdefault(owner, set()).add(short_)
    dn = 0
    for name, f in sorted(F.fns.items()):
        if not name.startswith(H2) or 'closure' in name or '::tests::' in name or len([b for b in f.blocks if not b['cu']]) > 12:
            continue
        own = name.rsplit('::', 1)[-1]
        calls = [t['fn'] for bi, t in f.calls() if t['fn'].startswith(H2) and not (t.get('exp') and 'trac' in t['exp'])]
        calls = [c for c in calls if c.rsplit('::', 1)[-1] not in ('as_dyn', 'deref', 'deref_mut', 'clone', 'resolve', 'lock')]
        if len(calls) != 1:
            continue
        target = calls[0]
        towner, _, tshort = target.rpartition('::')
        def mirror(x):
            for a_, b_ in (('send', 'recv'), ('local', 'remote'), ('client', 'server')):
                if a_ in x:
                    return x.replace(a_, b_)
                if b_ in x:
                    return x.replace(b_, a_)
            return None
        if tshort != own and tshort == mirror(own) and own in by_type.get(towner, ()):
            r.bad('delegate|%s' % name, f.file, '%s forwards to %s (the mirror-image sibling) although %s::%s exists' % (name, target, towner.split('::')[-1], own))
        elif tshort == own:
            dn += 1
    r.floor(dn, 40, 'delegating namesakes')
    # namesakes and direction words, crate-wide: a small `&self` function (no other argument)
    #  (a) named like a field of a type it reads, reads that field (StreamRef::is_pending_open -> Stream.is_pending_open);
    #  (b) with one direction word in its name (send/recv, local/remote) touches nothing that carries only the opposite word
    #      (Streams::current_max_send_streams -> Counts::max_send_streams; OpaqueStreamRef::available_recv_capacity -> recv_flow).
    #      In `State`, send is the `local` half and recv the `remote` half.
    OPP = {'send': 'recv', 'recv': 'send', 'local': 'remote', 'remote': 'local'}
    ALIAS = {'send': 'local', 'recv': 'remote', 'local': 'send', 'remote': 'recv'}

    def words(x):
        return set(w for w in OPP if w in x)
    ns = dw = 0
    for name, f in sorted(F.fns.items()):
        if not name.startswith(H2) or 'closure' in name or '::tests::' in name or f.argc != 1 or len([b for b in f.blocks if not b['cu']]) > 14:
            continue
        own = name.rsplit('::', 1)[-1]
        touched = set()
        for bi, si, pl, rv, ln in f.stmts():
            for (o, fl) in core.place_fields(pl):
                touched.add(('f', o, fl))
            if rv[0] not in ('setdiscr', 'other'):
                for y in walk(f.expr_of_rvalue(rv)):
                    if y[0] == 'field':
                        touched.add(('f', y[2], y[3]))
        for bi, t in f.calls():
            if t.get('exp') and any(k in t['exp'] for k in ('trace', 'debug', 'event', 'span')):
                continue
            if t['fn'].startswith(H2):
                touched.add(('c', t['fn'].rpartition('::')[0], t['fn'].rsplit('::', 1)[-1]))
            for a in t['a']:
                for y in walk(f.expr_of_op(a)):
                    if y[0] == 'field':
                        touched.add(('f', y[2], y[3]))
        for (k, o, fl) in sorted(touched):
            a = F.adts.get(o) if k == 'f' else None
            if a and own in [y[0] for v in a['variants'] for y in v['fields']]:
                ns += 1
                r.check(('f', o, own) in touched, 'namesake|%s' % name, f.file, '%s reads %s.%s' % (name, o.split('::')[-1], own if ('f', o, own) in touched else fl))
                break
        w = words(own)
        if len(w) == 1:
            w = next(iter(w))
            accept = {w, ALIAS[w]} if '::state::State::' in name else {w}
            dirs = [(k, o, n_) for (k, o, n_) in touched if words(n_)]
            if dirs:
                dw += 1
                wrong = [n_ for (k, o, n_) in dirs if not (words(n_) & accept)]
                r.check(not wrong, 'direction|%s' % name, f.file, '%s (%s side) touches %s' % (name, w, sorted(wrong) if wrong else 'only its own side'))
    r.floor(ns, 38, 'namesake accessors')
    r.floor(dw, 28, 'direction-word accessors')
    # Stream's own send-side helpers use send_flow only
    for fn in ('assign_capacity', 'send_data', 'capacity', 'notify_capacity'):
        f = F.fn(ST + '::' + fn)
        if not f:
            continue
        hit = False
        for bi, si, pl, rv, ln in f.stmts():
            if any(o == ST and fl == 'recv_flow' for (o, fl) in core.place_fields(pl)) or (rv[0] not in ('setdiscr', 'other') and any(x[0] == 'field' and x[2] == ST and x[3] == 'recv_flow' for x in walk(f.expr_of_rvalue(rv)))):
                hit = True
        for bi, t in f.calls():
            if t.get('exp') and any(k in t['exp'] for k in ('trace', 'debug', 'event', 'span')):
                continue
            for a in t['a']:
                if any(x[0] == 'field' and x[2] == ST and x[3] == 'recv_flow' for x in walk(f.expr_of_op(a))):
                    hit = True
        r.check(not hit, 'layer|Stream::%s' % fn, f.file, 'Stream::%s works on send_flow only' % fn)
    for fn, field in (('notify_send', 'send_task'), ('notify_recv', 'recv_task'), ('notify_push', 'push_task'), ('wait_send', 'send_task')):
        f = r.fn(ST + '::' + fn)
        if not f:
            continue
        touched = set()
        for bi, si, pl, rv, ln in f.stmts():
            for (o, fl) in core.place_fields(pl):
                if o == ST and fl.endswith('_task'):
                    touched.add(fl)
            if rv[0] not in ('setdiscr', 'other'):
                for y in walk(f.expr_of_rvalue(rv)):
                    if y[0] == 'field' and y[2] == ST and y[3].endswith('_task'):
                        touched.add(y[3])
        for bi, t in f.calls():
            for a in t['a']:
                for y in walk(f.expr_of_op(a)):
                    if y[0] == 'field' and y[2] == ST and y[3].endswith('_task'):
                        touched.add(y[3])
        r.check(touched == {field}, 'task|%s' % fn, f.file, 'Stream::%s touches %s' % (fn, sorted(touched)))
    return r


def check_stream_new(ctx, rid):
    """Stream::new wires the initial windows to the right flow: the FlowControl credited with the `init_send_window`
    argument is the one stored in `send_flow`, the one credited (and assigned) with `init_recv_window` is `recv_flow`."""
    r = ctx.rule(rid, 'WHO', 'Stream::new: the flow credited with init_send_window becomes send_flow, the flow credited with init_recv_window becomes recv_flow')
    F = ctx.facts
    ST = 'proto::streams::stream::Stream'
    f = r.fn(ST + '::new')
    if not f:
        return r
    init = {}
    for bi, si, pl, rv, ln in f.stmts():
        if rv[0] == 'aggr' and rv[1] == 'adt' and rv[2] == ST:
            names = [y[0] for y in F.adts[ST]['variants'][0]['fields']]
            for nm, o in zip(names, rv[3]):
                if nm in ('send_flow', 'recv_flow'):
                    init[nm] = strip(f.expr_of_op(o))
    r.check(set(init) == {'send_flow', 'recv_flow'} and init.get('send_flow') != init.get('recv_flow'), 'stream-new|flows-distinct', f.file, 'send_flow and recv_flow are initialised from two distinct FlowControl values')
    n = 0
    for bi, t in f.calls(lambda t: t['fn'].startswith('proto::streams::flow_control::FlowControl::') and t['fn'].rsplit('::', 1)[-1] in ('inc_window', 'assign_capacity')):
        if len(t['a']) != 2:
            continue
        recv = strip(f.expr_of_op(t['a'][0]))
        if recv[0] == 'ref':
            recv = strip(recv[1])
        amt = strip(f.expr_of_op(t['a'][1]))
        which = {('arg', 2): 'send_flow', ('arg', 3): 'recv_flow'}.get(amt)
        short = t['fn'].rsplit('::', 1)[-1]
        if which is None:
            r.bad('stream-new|%s|amount' % short, f.loc(bi), 'Stream::new credits a flow with %s, not with one of its window arguments' % (amt,))
            continue
        n += 1
        r.check(init.get(which) == recv, 'stream-new|%s|%s' % (short, which), f.loc(bi), 'Stream::new: %s(%s) is applied to the value stored as %s' % (short, 'init_send_window' if which == 'send_flow' else 'init_recv_window', which))
    r.floor(n, 3, 'window initialisations in Stream::new')
    return r


# ------------------------------------------------------------------------------------------------ predicate census

PREDICATES = os.path.join(HERE, 'rules', 'predicates.json')


def predicate_table(F, f):
    from . import predtab
    try:
        return predtab.table(F, f, max_atoms=9, max_rows=2000)
    except predtab.Unsupported:
        return None


def check_predicates(ctx, rid, prop):
    """reviewed boolean functions still compute the reviewed truth table over the same atoms"""
    from . import predtab
    r = ctx.rule(rid, 'TABLE', 'predicate census: each reviewed boolean function computes the reviewed truth table over its atoms (calls / fields: 2 outcomes, comparisons: lt/eq/gt, matches: one per arm) -- however it is written')
    F = ctx.facts
    with open(PREDICATES) as fh:
        tab = [e for e in json.load(fh) if prop in e['props']]
    prof = 'rel' if str(getattr(F, 'config', '')).endswith('-rel') else 'dbg'
    found = 0
    for e in tab:
        f = F.fn(e['fn'])
        key = 'predicate|%s' % e['fn'].replace('proto::streams::', '')
        if f is None:
            r.ok('absent|' + e['fn'], '', 'function not present in this configuration (not a violation)')
            continue
        want_atoms, want_rows = e['tables'][prof]
        got = predicate_table(F, f)
        if got is None:
            r.ok('restructured|' + e['fn'], f.file, 'no longer a finite decision over nameable atoms -- not compared')
            continue
        atoms, rows = got
        found += 1
        wa = [(k, list(d)) for k, d in want_atoms]
        if atoms == wa:
            r.check(rows == want_rows, key, f.file, '%s over %s: table %s (reviewed %s). %s' % (e['fn'].split('::')[-1] if 'closure' not in e['fn'] else e['fn'].split('::')[-2] + '::{closure}', [k for k, d in atoms], rows, want_rows, e['why']))
            continue
        keys_new, keys_old = set(k for k, d in atoms), set(k for k, d in wa)
        if keys_new < keys_old:
            ext = predtab.project(atoms, rows, wa)
            r.check(ext is not None and ext == want_rows, key, f.file, '%s no longer consults %s and its table differs from the reviewed one. %s' % (e['fn'].split('::')[-1], sorted(keys_old - keys_new), e['why']))
            continue
        r.ok('restructured|' + e['fn'], f.file, 'consults different atoms than reviewed (%s) -- not compared' % sorted(keys_new ^ keys_old)[:4])
    r.stat('entries', len(tab))
    r.floor(found, int(len(tab) * 0.8) if len(tab) >= 5 else 0, 'reviewed predicates found in the tree')
    return r


# ------------------------------------------------------------------------------------------------ update census

UPDATES = os.path.join(HERE, 'rules', 'updates.json')
_UPD_OPS = ('Add', 'Sub', 'Mul', 'AddWithOverflow', 'SubWithOverflow', 'BitOr', 'BitAnd')


def update_sites(F, fn_name):
    """{owner.field: ['Op:amount atoms', ...]} for every statement of fn_name (and its closures) that writes a field with a value
    computed from the same field (x += e, x -= e, x |= m, x = x.saturating_add(e).min(..))"""
    out = {}
    for f in _family(F, fn_name):
        for bi, si, pl, rv, ln in f.stmts():
            tgt = core.write_target(f, pl)
            if not tgt:
                continue
            e = strip(f.expr_of_rvalue(rv))

            def reads(x):
                return any(y[0] == 'field' and y[2] == tgt[0] and y[3] == tgt[1] for y in walk(x))
            if e[0] == 'bin' and e[1] in _UPD_OPS and (reads(e[2]) or reads(e[3])):
                other = e[3] if reads(e[2]) else e[2]
                op = e[1].replace('WithOverflow', '')
                if op == 'Sub' and not reads(e[2]):
                    op = 'RSub'
                out.setdefault('%s.%s' % tgt, []).append('%s:%s' % (op, '+'.join(sorted(operand_atoms(other))) or '-'))
            elif e[0] == 'call' and e[2] and any(k in e[1] for k in ('saturating_', 'wrapping_', 'checked_', '::min', '::max')) and reads(e[2][0]):
                atoms = '+'.join(sorted(set(a for x in e[2][1:] for a in operand_atoms(x)))) or '-'
                out.setdefault('%s.%s' % tgt, []).append('%s:%s' % (e[1].split('::')[-1], atoms))
    return out


def check_updates(ctx, rid, prop):
    """reviewed in-place updates keep their direction and amount"""
    r = ctx.rule(rid, 'FLOW', 'update census: each reviewed in-place update of a counter / ledger / flag octet keeps its operator (+= stays +=) and the source of its amount')
    F = ctx.facts
    with open(UPDATES) as fh:
        tab = [e for e in json.load(fh) if prop in e['props']]
    found = 0
    cache = {}
    for e in tab:
        fam = _family(F, e['fn'])
        if not fam:
            r.ok('absent|%s|%s' % (e['fn'], e['field']), '', 'function not present in this configuration (not a violation)')
            continue
        if e['fn'] not in cache:
            cache[e['fn']] = update_sites(F, e['fn'])
        got = cache[e['fn']].get(e['field'], [])
        if not got:
            # no in-place update of the field left: the write census (RW) reports a dropped assignment; a rewritten one is not compared
            r.ok('restructured|%s|%s' % (e['fn'], e['field']), fam[0].file, 'no in-place update of %s found -- not compared' % e['field'].split('::')[-1])
            continue
        found += 1
        need = collections.Counter(e['updates'])
        have = collections.Counter(got)
        r.check(not (need - have), 'update|%s|%s' % (e['fn'].replace('proto::streams::', ''), e['field'].split('::')[-1]), fam[0].file,
                '%s updates %s by %s (reviewed: %s). %s' % (e['fn'].split('::')[-1], e['field'].split('::')[-1], sorted(got), sorted(e['updates']), e['why']))
    r.stat('entries', len(tab))
    r.floor(found, int(len(tab) * 0.8) if len(tab) >= 5 else 0, 'reviewed in-place updates found in the tree')
    return r


# ------------------------------------------------------------------------------------------------ path-count census

COUNTS = os.path.join(HERE, 'rules', 'counts.json')
_H2P = ('proto::', 'frame::', 'codec::', 'hpack::', 'client::', 'server::', 'share::', 'ext::', 'error::')


def _is_mut_ref_arg(f, t, k=0):
    """the k-th argument of call `t` is a `&mut` borrow taken for the call (the callee can change the object)"""
    if len(t['a']) <= k:
        return False
    l = core.op_local(t['a'][k])
    hops = 0
    while l is not None and hops < 4:
        d = f.single_def(l)
        if d is None or d[0] != 's':
            # an argument of the enclosing function that is itself `&mut T`
            return 1 <= l <= f.argc and str(f.local_ty(l)).startswith('&mut ')
        rv = d[3]
        if rv[0] == 'ref':
            return bool(rv[1])
        if rv[0] == 'use':
            l = core.op_local(rv[1])
            hops += 1
            continue
        return False
    return False


def effect_calls(F, f):
    """{callee: [block, ...]} of the call sites of `f` that can change something: the callee gets a `&mut` borrow as its
    first argument (h2 methods, BufMut::put_*, Buf::advance, truncate, VecDeque::push_back ...), is a waker, a callback
    (`f(x)`), or mem::replace / take / swap.  Getters, conversions, clones, combinators and tracing are not effects."""
    out = {}
    for bi, t in f.calls():
        if t.get('exp'):
            continue
        fn = t['fn']
        short = fn.rsplit('::', 1)[-1]
        if short in ('deref', 'deref_mut', 'clone', 'into', 'from', 'as_ref', 'as_mut', 'borrow', 'borrow_mut', 'fmt', 'branch', 'from_residual', 'into_iter', 'next', 'iter', 'iter_mut', 'new', 'lock', 'unwrap', 'expect', 'map', 'map_err', 'ok_or', 'and_then', 'take', 'as_mut_slice', 'get_mut', 'get_ref', 'index_mut', 'index', 'as_pin_mut'):
            continue
        eff = _is_mut_ref_arg(f, t, 0) or fn.startswith(('std::task::Waker::wake', 'std::mem::replace', 'std::mem::swap', 'std::mem::take', 'std::ops::FnMut::call_mut', 'std::ops::FnOnce::call_once', 'std::ops::Fn::call'))
        if not eff:
            continue
        if fn.startswith(('std::fmt', 'core::fmt', 'tracing', 'std::option::Option::', 'std::result::Result::', 'std::pin::Pin')):
            continue
        out.setdefault(fn, []).append(bi)
    return out


def path_counts(f, blocks):
    """(min, max) number of the given blocks on a path from the entry to a return (loops are passed once: back edges are
    ignored; paths that end in a panic do not count)"""
    marks = set(blocks)
    back = set(f.back_edges())
    memo = {}
    rets = set(f.returns())
    live = f.live
    import sys
    sys.setrecursionlimit(10000)

    def go(b, stack):
        if b in memo:
            return memo[b]
        here = 1 if b in marks else 0
        if b in rets:
            memo[b] = (here, here)
            return memo[b]
        best = None
        for s in f.succ[b]:
            if (b, s) in back or s in stack or s not in live:
                continue
            r = go(s, stack | {b})
            if r is None:
                continue
            best = r if best is None else (min(best[0], r[0]), max(best[1], r[1]))
        memo[b] = None if best is None else (best[0] + here, best[1] + here)
        return memo[b]
    return go(0, frozenset()) or (0, 0)


def check_counts(ctx, rid, prop):
    """reviewed effects are still performed as often along a path as reviewed"""
    r = ctx.rule(rid, 'PASS', 'path-count census: along the paths of each reviewed function a reviewed effect (call of a mutating method, buffer write, callback, field write) still occurs at least as often as reviewed -- minimum and maximum over all entry-to-return paths (hoisting, merging or restructuring branches keeps both; deleting a statement lowers one)')
    F = ctx.facts
    with open(COUNTS) as fh:
        tab = [e for e in json.load(fh) if prop in e['props']]
    found = 0
    cache = {}
    for e in tab:
        f = F.fn(e['fn'])
        if f is None:
            r.ok('absent|%s|%s' % (e['fn'], e['what']), '', 'function not present in this configuration (not a violation)')
            continue
        found += 1
        if e['what'].startswith('call:') and e['what'][5:].lstrip('<').startswith(_H2P) and F.fn(e['what'][5:]) is None and e['what'][5:] not in getattr(F, 'renamed', {}).values():
            r.ok('gone|%s|%s' % (e['fn'], e['what']), f.file, 'the callee no longer exists (inlined by hand or removed together with its callers) -- not compared')
            continue

        def counts_of(g):
            if e['what'].startswith('call:'):
                if g.name not in cache:
                    cache[g.name] = effect_calls(F, g)
                blocks = cache[g.name].get(e['what'][5:], [])
            else:
                owner, field = e['what'][6:].rsplit('.', 1)
                blocks = sorted(set(bi for bi, si, pl, rv, ln in g.stmts() if core.write_target(g, pl) == (owner, field)))
            return path_counts(g, blocks)
        mn, mx = counts_of(f)
        ok = mn >= e['min'] and mx >= e['max']
        if not ok and '::{closure' in e['fn']:
            # closures are numbered in source order: one more or one fewer closure in the parent renumbers them, and a closure
            # body may have been written in line -- the effect must be found in the parent or one of its closures
            for g in _family(F, e['fn'].split('::{closure')[0]):
                m2, x2 = counts_of(g)
                # (written in line the effect sits behind the test that used to decide whether the closure runs: only the
                # maximum is comparable)
                if x2 >= e['max'] and (m2 >= e['min'] or g.name != f.name):
                    ok, mn, mx = True, m2, x2
                    break
        r.check(ok, 'count|%s|%s' % (e['fn'].replace('proto::streams::', ''), e['what']), f.file,
                '%s performs %s between %d and %d times along a path (reviewed: %d to %d). %s' % (e['fn'].split('::')[-1] if 'closure' not in e['fn'] else e['fn'].split('::')[-2] + '::{closure}', e['what'], mn, mx, e['min'], e['max'], e['why']))
    r.stat('entries', len(tab))
    r.floor(found, int(len(tab) * 0.8) if len(tab) >= 5 else 0, 'reviewed functions found in the tree')
    return r
