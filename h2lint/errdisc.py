"""Error discipline: the Result of an h2 function is never dropped on the floor.

For every call, in non-test h2 code, of an h2 function whose return type is `Result<..>` (or `Poll<Result<..>>`), the
returned value must be *consumed* on every use chain: propagated with `?`, matched, returned, converted by a combinator
whose own result is consumed, passed on to another function, or unwrapped.  The two ways of silencing an error that
still compile -- `let _ = call();` / `call().ok();` (and the `is_ok` / `unwrap_or` family used as a statement) -- show
up as a returned local with no use, or with a use whose result in turn has no use.

The handful of call sites that deliberately ignore the result today are frozen in ACCEPTED with the reason read off the
source; anything else is reported with the caller, the callee and the line.
"""
from . import core

H2 = ('proto::', 'frame::', 'codec::', 'hpack::', 'client::', 'server::', 'share::', 'ext::', 'error::')

_FN_CALL = ('std::ops::FnMut::call_mut', 'std::ops::FnOnce::call_once', 'std::ops::Fn::call')

# combinators that turn a Result into something which must itself be consumed
PASS = (
    'std::result::Result::map', 'std::result::Result::map_err', 'std::result::Result::and_then', 'std::result::Result::or_else',
    'std::task::Poll::map', 'std::task::Poll::map_err', 'std::task::Poll::map_ok', 'std::result::Result::ok', 'std::result::Result::err',
    'std::result::Result::unwrap_or', 'std::result::Result::unwrap_or_else', 'std::result::Result::unwrap_or_default',
    'std::result::Result::is_ok', 'std::result::Result::is_err', 'std::convert::Into', '<std::result::Result as std::convert::From',
    'std::option::Option::map', 'std::option::Option::is_some', 'std::option::Option::is_none', 'std::option::Option::unwrap_or',
    'std::task::Poll::is_ready', 'std::task::Poll::is_pending',
)
# consumers that end the chain: the error is propagated, asserted absent, or handed to other code
SINK = (
    '<std::result::Result as std::ops::Try>::branch', '<std::task::Poll as std::ops::Try>::branch',
    'std::result::Result::expect', 'std::result::Result::unwrap', 'std::result::Result::expect_err', 'std::result::Result::unwrap_err',
)

# (caller, callee-suffix) -> reason.  Read and confirmed on the pinned tree.
ACCEPTED = {
    ('<proto::connection::Connection as std::ops::Drop>::drop', 'Streams::recv_eof'):
        'Drop of the connection: recv_eof fails only when the mutex is poisoned, and nothing can be reported from drop',
}


def _uses(f):
    """local -> list of uses: ('call', fn, dest, ln) | ('sw',) | ('ret',) | ('move', dst_local) | ('store',) | ('ref', dst_local)"""
    uses = {}

    def add(l, u):
        if l is not None:
            uses.setdefault(l, []).append(u)
    for bi, b in enumerate(f.blocks):
        if b['cu']:
            continue
        for st in b['s']:
            pl, rv = st[0], st[1]
            dst = pl[0]
            simple = len(pl) == 1
            k = rv[0]
            if k == 'use':
                l = core.op_local(rv[1])
                if l is not None:
                    if dst == 0:
                        add(l, ('ret',))
                    elif simple:
                        add(l, ('move', dst))
                    else:
                        add(l, ('store',))
            elif k in ('ref', 'addr'):
                add(rv[2][0] if k == 'ref' else rv[1][0], ('ref', dst))
            elif k == 'discr':
                add(rv[1][0], ('sw',))
            elif k == 'aggr':
                for o in rv[3]:
                    l = core.op_local(o)
                    if l is not None:
                        add(l, ('ret',) if dst == 0 else ('move', dst))
            elif k in ('cast', 'un'):
                add(core.op_local(rv[2]), ('move', dst))
            elif k == 'bin':
                add(core.op_local(rv[2]), ('move', dst))
                add(core.op_local(rv[3]), ('move', dst))
        t = b['t']
        if t['k'] == 'call':
            d = t['d'][0] if len(t['d']) == 1 else None
            for a in t['a']:
                add(core.op_local(a), ('call', t['fn'], d, t['ln']))
        elif t['k'] == 'sw':
            add(core.op_local(t['o']), ('sw',))
    return uses


def _consumed(f, uses, l, seen, depth=0):
    """True when some use chain of local l ends in a sink (propagate / match / return / pass on)."""
    if l in seen or depth > 8:
        return False
    seen.add(l)
    if l == 0:
        return True
    for u in uses.get(l, ()):
        k = u[0]
        if k in ('sw', 'ret', 'store'):
            return True
        if k in ('move', 'ref'):
            if _consumed(f, uses, u[1], seen, depth + 1):
                return True
        elif k == 'call':
            fn, d = u[1], u[2]
            if fn.startswith(SINK):
                return True
            if fn.startswith(PASS):
                if d is not None and _consumed(f, uses, d, seen, depth + 1):
                    return True
                continue
            # any other callee (h2 function, closure call, mem::replace, Poll::Ready ctor ...) takes responsibility
            if 'mem::drop' in fn or fn.startswith('std::mem::forget'):
                continue
            return True
    return False


def sites(F):
    """every (caller, callee, line, consumed?) for h2 calls returning a Result"""
    out = []
    for name, f in sorted(F.fns.items()):
        if '::tests::' in name or not name.lstrip('<').startswith(H2):
            continue
        uses = None
        for bi, t in f.calls(lambda t: t['fn'].lstrip('<').startswith(H2) or t['fn'].startswith(_FN_CALL)):
            if len(t['d']) != 1:
                continue
            if t['fn'].startswith(_FN_CALL):
                # a callback / closure parameter invoked by h2 code (Store::try_for_each): its Result counts as well
                ret = str(f.local_ty(t['d'][0]))
            else:
                cf = F.fns.get(t['fn'])
                ret = cf.ret if cf is not None else ''
            if not (ret.startswith('std::result::Result<') or ret.startswith('std::task::Poll<std::result::Result<') or ret.startswith('core::result::Result<')):
                continue
            if uses is None:
                uses = _uses(f)
            d = t['d'][0]
            out.append((name, t['fn'], t['ln'], f.file, _consumed(f, uses, d, set())))
    return out


SCOPE = {
    # property -> source files whose call sites it owns
    'C03': ('src/proto/streams/flow_control.rs', 'src/proto/streams/stream.rs', 'src/proto/streams/recv.rs'),
    'C04': ('src/proto/streams/send.rs', 'src/proto/streams/prioritize.rs'),
    'C09': ('src/proto/connection.rs', 'src/proto/go_away.rs', 'src/proto/streams/streams.rs', 'src/proto/error.rs', 'src/proto/peer.rs',
            'src/proto/streams/counts.rs', 'src/proto/streams/state.rs', 'src/proto/streams/store.rs'),
    'C10': ('src/hpack/decoder.rs', 'src/hpack/header.rs', 'src/hpack/encoder.rs'),
    'C12': ('src/codec/framed_write.rs', 'src/codec/mod.rs'),
    'C13': ('src/proto/streams/recv.rs', 'src/frame/headers.rs'),
    'C14': ('src/proto/settings.rs', 'src/frame/settings.rs'),
    'C15': ('src/proto/ping_pong.rs',),
    'C18': ('src/codec/framed_read.rs', 'src/codec/mod.rs', 'src/codec/error.rs', 'src/frame/mod.rs', 'src/frame/headers.rs', 'src/frame/data.rs',
            'src/frame/priority.rs', 'src/frame/settings.rs'),
    'C20': ('src/client.rs', 'src/server.rs', 'src/share.rs', 'src/ext.rs'),
}


def check(ctx, rid, prop, floor):
    files = SCOPE[prop]
    r = ctx.rule(rid, 'ERRDISC', 'error discipline in %s: the Result of every h2 call is propagated, matched, returned or passed on -- never dropped (`let _ =`, `.ok();`, `.is_ok();` as a statement)' % ', '.join(x.replace('src/', '') for x in files))
    F = ctx.facts
    n = 0
    acc = 0
    for caller, callee, ln, file, ok in sites(F):
        if file not in files:
            continue
        n += 1
        if ok:
            continue
        base = caller.split('::{closure')[0]
        why = None
        for (c, suffix), reason in ACCEPTED.items():
            if base == c and callee.endswith(suffix):
                why = reason
        if why is not None:
            acc += 1
            r.ok('errdisc|%s|%s' % (base, callee.rsplit('::', 2)[-2] + '::' + callee.rsplit('::', 1)[-1]), '%s:%s' % (file, ln), 'accepted discard: ' + why)
            continue
        r.bad('errdisc|%s|%s' % (base, callee.rsplit('::', 2)[-2] + '::' + callee.rsplit('::', 1)[-1]), '%s:%s' % (file, ln),
              '%s discards the Result of %s: an error raised there is silently lost' % (base, callee))
    r.ok('errdisc|all', '', '%d Result-returning h2 call sites examined, %d deliberately ignored (table), all others consumed' % (n, acc))
    r.floor(n, floor, 'Result-returning h2 call sites')
